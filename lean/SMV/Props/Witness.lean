import SMV.Props.C08Hist
import SMV.Props.C07Decl
import SMV.Props.C13
import SMV.Props.C15
import SMV.Props.RefineVeto
import SMV.Props.RefineData
import SMV.Props.C13Complete
import SMV.Props.RefineReply
import SMV.Props.EndToEnd
import SMV.Props.RefineDataW
import SMV.Props.EndToEndModes
import SMV.Props.C14Names
namespace SMV.Witness
open SMV

/-! A concrete non-trivial definition on which the hypotheses of the property theorems hold
    (names are spelled as explicit character lists so that everything reduces in the kernel). -/

def A : Name := [Ch.up 0]
def B : Name := [Ch.up 1]
def Cc : Name := [Ch.up 2, Ch.lo 2]
def Dd : Name := [Ch.up 3]
def P : Name := [Ch.up 15]
def Q : Name := [Ch.up 16]
def go : Name := [Ch.lo 6, Ch.lo 14]
def stop : Name := [Ch.lo 18, Ch.lo 19, Ch.us, Ch.dig 2]
def g1 : Name := [Ch.lo 6, Ch.dig 1]
def g2 : Name := [Ch.lo 6, Ch.dig 2]
def u1 : Name := [Ch.lo 20, Ch.dig 1]
def b1 : Name := [Ch.lo 1, Ch.dig 1]
def a1 : Name := [Ch.lo 0, Ch.dig 1]
def w1 : Name := [Ch.lo 22, Ch.dig 1]
def M : Name := [Ch.up 12]

/-- three-level forest (`P { B, Q { Cc(data), Dd }, initial: Dd }`), a top-level data leaf, a
    multi-source transition with a superstate source and a superstate target, hooks at both levels,
    a payload, `async`, `dynamic` -/
def exDef : Def :=
  [ .name M, .async true, .dynamic true, .initial A,
    .states [ .leaf A (some ["u32"]),
              .sup P none [ .state B none, .sup Q none [ .state Cc (some ["D"]), .state Dd none ], .initial Dd ] ],
    .events [ ⟨go, [ .payload ["Pay"], .hooks .guards [g1], .hooks .around [w1],
                     .transition [ .from [A, Q], .to P, .hooks .guards [g2], .hooks .unl [u1], .hooks .before [b1], .hooks .after [a1] ],
                     .transition [ .from [B], .to Cc ] ]⟩,
              ⟨stop, [ .transition [ .from [P], .to A ] ]⟩ ] ]

def exHier : Hierarchy :=
  { superstates := [([Cc, Dd], Cc), ([B, Cc, Dd], Dd)],
    lookup := [(P, [B, Cc, Dd]), (Q, [Cc, Dd])],
    ancestors := [(Dd, [P, Q]), (Cc, [P, Q]), (B, [P])],
    initialChildren := [(P, Dd), (Q, Cc)] }

def exEvents : List Event :=
  [ { name := go, payload := some ["Pay"], guards := [g1], around := [w1],
      transitions := [ { sources := [A, Q], target := P, guards := [g2], unl := [u1], before := [b1], after := [a1] },
                       { sources := [B], target := Cc } ] },
    { name := stop, transitions := [ { sources := [P], target := A } ] } ]

/-- what `parse` makes of `exDef` (proved below, `ex_parses`) -/
def exM : Machine :=
  { name := M, initial := A, context := none, states := [A, B, Cc, Dd],
    storage := [⟨A, storageFieldIdent A, ["u32"]⟩, ⟨Cc, storageFieldIdent Cc, ["D"]⟩],
    hierarchy := exHier, events := exEvents, asyncMode := true, dynamicMode := true,
    graph := buildGraph exHier [A, B, Cc, Dd] exEvents }

def isOk {ε α : Type} : Except ε α → Bool
  | .ok _ => true
  | .error _ => false

/-- the parser's recursion through nested superstate blocks is well-founded, not structural, so it is
    evaluated with its equation lemmas rather than by kernel reduction -/
theorem ex_parses : parseMachine exDef = .ok exM := by
  simp [parseMachine, parseTop, parseStates, parseSuper, parseItems, parseEvents, parseEventItems, parseTransition,
    parseTransitionItems, PS.pushStorage, Hierarchy.registerLeaf, Hierarchy.registerSuperstate,
    exDef, exM, exHier, exEvents, A, B, Cc, Dd, P, Q, M]
theorem ex_validates : exM.validate = .ok () := by
  have h : isOk exM.validate = true := by decide
  cases hp : exM.validate with
  | ok u => rfl
  | error e => rw [hp] at h; cases h
theorem ex_graphBuilt : exM.GraphBuilt := parseMachine_graphBuilt exDef exM ex_parses
theorem ex_pascalInj : exM.PascalInj := by unfold Machine.PascalInj; decide
theorem ex_fieldsNodup : exM.FieldsNodup := by unfold Machine.FieldsNodup; decide
theorem ex_leafDataOnly : C08.LeafDataOnly exM := by unfold C08.LeafDataOnly; decide

/-- the graph has the edges the tree says: `go` from A, Cc, Dd (sources A and Q) to Dd (initial leaf of P);
    from B to Cc; `stop` from B, Cc, Dd to A -/
example : exM.graph.map (fun se => (se.1, se.2.event, se.2.target)) =
    [(A, go, Dd), (Cc, go, Dd), (Dd, go, Dd), (B, go, Cc), (B, stop, A), (Cc, stop, A), (Dd, stop, A)] := by decide

/-- merged hook lists: event-level before transition-level -/
example : (exM.delta A go).map (·.guards) = some [g1, g2] := by decide

/-- C01 instantiated: a new wrapper is in `A` -/
example : ∃ tm, dynNew exM.code (partsOf exM) 7 = some ⟨some (A, tm)⟩ :=
  let ⟨tm, h, _⟩ := C01.new_initial exM ex_validates 7
  ⟨tm, h⟩

/-- C13's `Accepted` holds of it (so the rule theorems are not vacuous) and C15's twin validates -/
example : C13.Accepted exDef exM := ⟨ex_parses, ex_validates⟩
example : isOk (C15.syncTwin exM).validate = true := by decide

/-- rustc's rules (SMV/Static.lean) accept what is emitted for it, and the expansion succeeds -/
example : Static.accepted (genTypestate exM ++ genDynamic exM) = true := by decide
example : isOk (exM.expand false) = true := by decide

/-! environments meeting the hypotheses on hooks -/

/-- guards answer true, `unless` conditions false, everything else lets the transition through -/
def envAllow : Env := fun _ c =>
  match c.kind with
  | .cond => ⟨.bool (c.name == g1 || c.name == g2), none⟩
  | .before | .after => ⟨.unit, none⟩
  | .aroundBefore | .aroundAfter => ⟨.proceed, none⟩

example : Permissive envAllow := by
  intro h c; unfold envAllow; refine ⟨?_, ?_, ?_, ?_⟩ <;> intro hk <;> simp [hk]
example : CondsAnswer envAllow (fun n => n == g1 || n == g2) := by
  intro h c hk; simp [envAllow, hk]
example : WellTyped envAllow := by
  intro h c; right; unfold envAllow
  cases hk : c.kind <;> simp

/-- the guard `g2` refuses -/
def envRefuse : Env := fun h c =>
  match c.kind with
  | .cond => ⟨.bool (c.name == g1), none⟩
  | _ => envAllow h c

/-- the around callback `w1` vetoes with `ActionFailed`, guards answer true -/
def envVeto : Env := fun h c =>
  match c.kind with
  | .aroundBefore => ⟨if c.name = w1 then .abort (.actionFailed w1) else .proceed, none⟩
  | _ => envAllow h c

example : Refine.Scripted envVeto ⟨fun n => n == g1 || n == g2, fun a => if a = w1 then some (.actionFailed w1) else none⟩ := by
  refine ⟨?_, ?_, ?_, ?_, ?_⟩
  · intro h c hk; simp [envVeto, envAllow, hk]
  · intro h c hk
    simp only [envVeto, hk]
    by_cases hn : c.name = w1 <;> simp [hn]
  · intro h c hk; simp [envVeto, envAllow, hk]
  · intro h c hk; simp [envVeto, envAllow, hk]
  · intro h c hk; simp [envVeto, envAllow, hk]

/-- a complete run on the model: from `A`, `go` lands on `Dd`, the initial leaf of `P`, having called the
    hooks in the documented order; a refused `go` leaves `A`; `stop` is not declared from `A` -/
def pascalGo : Name := [Ch.up 6, Ch.lo 14]
def pascalStop : Name := [Ch.up 18, Ch.lo 19, Ch.dig 2]
example : toPascal go = pascalGo ∧ toPascal stop = pascalStop := by decide

def exCode : Code := genTypestate exM ++ genDynamic exM
def afterNew : Holder := (step envAllow exCode (some (partsOf exM)) .gone (.newDyn 7)).holder

example : (step envAllow exCode (some (partsOf exM)) afterNew .currentState).res = .str A := by decide
example : let o := step envAllow exCode (some (partsOf exM)) afterNew (.handle pascalGo (some 1))
    o.res = .ok ∧ o.trace.map (fun c => (c.kind, c.name)) =
      [(.aroundBefore, w1), (.cond, g1), (.cond, g2), (.cond, u1), (.before, b1), (.after, a1), (.aroundAfter, w1)] ∧
    (step envAllow exCode (some (partsOf exM)) o.holder .currentState).res = .str Dd := by decide
example : let o := step envRefuse exCode (some (partsOf exM)) afterNew (.handle pascalGo (some 1))
    (∃ e, o.res = .errDyn e) ∧ o.trace.map (fun c => (c.kind, c.name)) = [(.aroundBefore, w1), (.cond, g1), (.cond, g2)] ∧
    (step envAllow exCode (some (partsOf exM)) o.holder .currentState).res = .str A := by
  refine ⟨?_, by decide, by decide⟩
  exact ⟨_, rfl⟩
example : (step envAllow exCode (some (partsOf exM)) afterNew (.handle pascalStop none)).res =
    .errDyn (.invalidTransition (.name A) (.name stop)) := by decide

/-! the cell of the data state `A` -/

def specA : StorageSpec := ⟨A, storageFieldIdent A, ["u32"]⟩
def accA : DynAcc :=
  { readName := toSnake A ++ Name.lit "_data", writeName := toSnake A ++ Name.lit "_data_mut",
    setName := Name.lit "set_" ++ toSnake A ++ Name.lit "_data", ty := ["u32"], field := specA.field,
    stateStr := A, reachable := [A] }

example : specA ∈ exM.storage := by decide
/-- the accessor the generator emits for `A` is `accA` (C11.leaf_acc), so `cell_refines` applies to it -/
example : genDynAcc exM specA = some accA :=
  C11.leaf_acc exM specA (by decide) (by decide)

/-- the abstract cell along a history: set, read, overwrite in place, read, leave `A` (the cell is gone),
    come back through `stop` from `Dd`: `Default` again -/
example : (RefineData.srun exM A (A, some 0)
    [.set 5, .read, .write 7, .read, .handle envAllow (fun n => n == g1 || n == g2) exEvents[0] (some 1), .read,
     .set 9, .handle envAllow (fun n => n == g1 || n == g2) exEvents[1] none, .read]).2 =
    [.stored true, .val (some 5), .unit, .val (some 7), .fired true, .val none, .stored false, .fired true, .val (some 0)] := by
  decide
example : RefineData.WriteFree envAllow := by
  intro h c; unfold envAllow; cases c.kind <;> rfl

/-! a second, small machine whose *after* callback writes the data of the state it enters: the hypotheses of
    `cell_refines_w` hold of it, and the abstract cell shows the write -/

def back : Name := [Ch.lo 1, Ch.lo 10]
def exEvents2 : List Event :=
  [ { name := go, transitions := [ { sources := [A], target := B, before := [b1] } ] },
    { name := back, transitions := [ { sources := [B], target := A, after := [a1] } ] } ]
def exM2 : Machine :=
  { name := M, initial := A, context := none, states := [A, B],
    storage := [⟨A, storageFieldIdent A, ["u32"]⟩],
    hierarchy := {}, events := exEvents2, asyncMode := false, dynamicMode := true,
    graph := buildGraph {} [A, B] exEvents2 }
theorem ex2_validates : exM2.validate = .ok () := by
  have h : isOk exM2.validate = true := by decide
  cases hp : exM2.validate with
  | ok u => rfl
  | error e => rw [hp] at h; cases h
example : exM2.GraphBuilt := rfl
example : exM2.PascalInj := by unfold Machine.PascalInj; decide
example : exM2.FieldsNodup := by unfold Machine.FieldsNodup; decide
example : specA ∈ exM2.storage := by decide
/-- callbacks: `b1` (a *before* callback of `go`) writes 3 into `A`'s field, `a1` (an *after* callback of `back`)
    writes 9 into it -/
def ωex : Name → Option (Name × Nat) := fun n =>
  if n == b1 then some (specA.field, 3) else if n == a1 then some (specA.field, 9) else none
def envWrites : Env := fun _ c =>
  { val := match c.kind with
      | .cond => .bool true
      | .aroundBefore | .aroundAfter => .proceed
      | .before | .after => .unit,
    write := ωex c.name }
example : RefineData.Writes envWrites ωex := fun _ _ => rfl
example : Permissive envWrites := by
  intro h c; unfold envWrites; refine ⟨?_, ?_, ?_, ?_⟩ <;> intro hk <;> simp [hk]
example : CondsAnswer envWrites (fun _ => true) := by
  intro h c hk; simp [envWrites, hk]
/-- set 5 in `A`; `go` (its before callback writes 3 into the machine that is consumed — never seen); the cell is
    gone in `B`; `back` enters `A`: `Default`, then the after callback's 9; an in-place write; a read -/
example : (RefineData.srunW exM2 A specA.field (A, some 0)
    [.set 5, .read, .handle envWrites (fun _ => true) ωex exEvents2[0] none, .read,
     .handle envWrites (fun _ => true) ωex exEvents2[1] none, .read, .write 4, .read]).2 =
    [.stored true, .val (some 5), .fired true, .val none, .fired true, .val (some 9), .unit, .val (some 4)] := by
  decide

open Refine in
/-- `refines_spec` instantiated end to end on the concrete machine: a new wrapper, `go` (accepted: lands on
    `Dd`, the initial leaf of `P`), `go` again under a refusing truth assignment (`g2` false: refused, state
    kept), then `stop` (declared from `P`: back to `A`). The theorem yields the run; `decide` evaluates only the
    four-line abstract machine. -/
example : ∃ d0 df rs, dynNew exM.code (partsOf exM) 7 = some d0 ∧
    runEventsE exM d0
      [(envAllow, exEvents[0], some 1), (envRefuse, exEvents[0], some 2), (envAllow, exEvents[1], none)] [] = some (df, rs) ∧
    rs.map (fun r => decide (r = .ok)) = [true, false, true] ∧ df.stateName = some A := by
  obtain ⟨tm, hnew, _, _, hinv⟩ := C01.new_initial exM ex_validates 7
  have hAllow : Tame (envAllow, fun n => n == g1 || n == g2) := by
    refine ⟨?_, ?_⟩
    · intro h c hk; simp [envAllow, hk]
    · intro h c; unfold envAllow; refine ⟨?_, ?_, ?_, ?_⟩ <;> intro hk <;> simp [hk]
  have hRefuse : Tame (envRefuse, fun n => n == g1) := by
    refine ⟨?_, ?_⟩
    · intro h c hk; simp [envRefuse, hk]
    · intro h c; unfold envRefuse envAllow; refine ⟨?_, ?_, ?_, ?_⟩ <;> intro hk <;> simp [hk]
  obtain ⟨df, rs, hrun, hrs, hfs, _, _⟩ := refines_spec exM ex_validates ex_graphBuilt ex_pascalInj
    [((envAllow, fun n => n == g1 || n == g2), exEvents[0], some 1),
     ((envRefuse, fun n => n == g1), exEvents[0], some 2),
     ((envAllow, fun n => n == g1 || n == g2), exEvents[1], none)]
    ⟨some (exM.initial, tm)⟩ A []
    (by
      intro x hx
      simp only [List.mem_cons, List.mem_nil_iff, or_false] at hx
      rcases hx with rfl | rfl | rfl
      · exact ⟨hAllow, by decide⟩
      · exact ⟨hRefuse, by decide⟩
      · exact ⟨hAllow, by decide⟩)
    hinv rfl
  refine ⟨_, df, rs, hnew, hrun, ?_, ?_⟩
  · rw [hrs]; decide
  · rw [hfs]; decide

open Refine in
/-- the abstract replies along a history of the concrete machine: `go` accepted (A → Dd); `go` with `g2`
    false: `GuardFailed` naming `g2` (the first blocker, after `g1` passed); `go` vetoed by `w1` with an
    `InvalidTransition` kind: the error names the state the machine is in (`Dd`) and the event; `stop` accepted
    (Dd → A); `stop` in `A`: no edge, `InvalidTransition { from: A, event: stop }`. By `replies_refine` these
    are the emitted wrapper's replies. -/
example : specReplies exM A
    [ (⟨fun n => n == g1 || n == g2, fun _ => none⟩, go),
      (⟨fun n => n == g1, fun _ => none⟩, go),
      (⟨fun _ => true, fun n => if n == w1 then some .invalidTransition else none⟩, go),
      (⟨fun _ => false, fun _ => none⟩, stop),
      (⟨fun _ => false, fun _ => none⟩, stop) ] =
    [ .ok, .err (.guardFailed (.name g2) (.name go)), .err (.invalidTransition (.name Dd) (.name go)), .ok,
      .err (.invalidTransition (.name A) (.name stop)) ] := by decide

/-- the concrete definition satisfies the parser's rules and its machine the validator's: the hypotheses of
    `macro_accepts` are satisfiable, and it yields what `ex_parses` / `ex_validates` computed -/
theorem ex_parserRules : ParserRules exDef := by
  refine ⟨by decide, by decide, by decide, by decide, ?_, ?_⟩
  · intro items hi
    simp only [exDef, List.mem_cons, List.mem_nil_iff, or_false, reduceCtorEq, false_or, TopItem.states.injEq] at hi
    subst hi
    exact ⟨⟨by decide, by decide, by decide⟩, by decide, by decide⟩
  · intro blocks hb
    simp only [exDef, List.mem_cons, List.mem_nil_iff, or_false, reduceCtorEq, false_or, TopItem.events.injEq] at hb
    subst hb
    intro b hb'
    simp only [List.mem_cons, List.mem_nil_iff, or_false] at hb'
    rcases hb' with rfl | rfl
    · refine ⟨by decide, ?_⟩
      intro tb htb
      simp only [trBlocks, List.mem_cons, List.mem_nil_iff, or_false] at htb
      rcases htb with rfl | rfl <;> exact ⟨by decide, by decide, by decide⟩
    · refine ⟨by decide, ?_⟩
      intro tb htb
      simp only [trBlocks, List.mem_cons, List.mem_nil_iff, or_false] at htb
      subst htb
      exact ⟨by decide, by decide, by decide⟩

example : C13.Valid exM := (C13.validate_iff exM).mp ex_validates

/-- the hypotheses of `end_to_end` hold of the concrete definition, and the machine it yields is `exM` -/
example : ∃ m, parseMachine exDef = .ok m ∧ m = exM := by
  obtain ⟨m, hp, _⟩ := EndToEnd.end_to_end exDef ex_parserRules (by
    intro m hm
    rw [ex_parses] at hm
    cases hm
    exact (C13.validate_iff exM).mp ex_validates)
  refine ⟨m, hp, ?_⟩
  rw [ex_parses] at hp
  cases hp
  rfl

/-- `conversion_erasure` on the concrete machine: a typed machine in the initial state, a conversion, `go` through
    `handle`, a conversion back, `stop_2` through the typed method — under any hooks the same machine and trace as
    the two events through `handle` on the machine wrapped once. Its hypotheses are met. -/
example (env₁ env₂ : Env) (tm : TM) (hs : tm.state ∈ exM.states) (h : Hist) (evGo evStop : Event)
    (h1 : evGo ∈ exM.events) (h2 : evStop ∈ exM.events) :
    Refine.obs (Refine.gRun exM (.typed tm) [.convert, .call env₁ evGo none, .convert, .call env₂ evStop (some 3)] h) =
      Refine.obs (Refine.gRun exM (Refine.Hold2.typed tm).asDyn [.call env₁ evGo none, .call env₂ evStop (some 3)] h) :=
  Refine.conversion_erasure exM ex_validates ex_graphBuilt ex_pascalInj _ (.typed tm) h
    (by
      intro op hop
      simp only [List.mem_cons, List.mem_nil_iff, or_false] at hop
      rcases hop with rfl | rfl | rfl | rfl <;> first | trivial | exact h1 | exact h2)
    hs

/-- the naming conditions of `C14Names.accepted_iff` hold of the concrete machine -/
example : C14Names.NamesOK exM true := (C14Names.accepted_iff exM true).mp (by decide)

/-- `end_to_end_modes` applies to the concrete definition -/
example : ∃ m, parseMachine exDef = .ok m ∧ m.validate = .ok () := by
  obtain ⟨m, hp, hv, _⟩ := EndToEnd.end_to_end_modes exDef ex_parserRules (by
    intro m hm
    rw [ex_parses] at hm
    cases hm
    exact (C13.validate_iff exM).mp ex_validates)
  exact ⟨m, hp, hv⟩

end SMV.Witness
