import SMV.Name
import SMV.Syntax
import SMV.Elab
import SMV.IR
import SMV.Codegen
import SMV.Render
import SMV.Exec
import SMV.Driver
