import SMV.Driver
open SMV.Driver

/-- Line protocol:
  `<id> <feature> <def…>`          one definition: T1 dump + T2 tokens
  `INFO <id> <feature> <def…>`     machine facts for the harness generator
  `SCN <id> <feature> <def…>` … op lines … `END`   a T3 scenario
  `NAME <ident>`                   to_snake_case / to_pascal_case of an identifier -/
partial def loop (h : IO.FS.Stream) (out : IO.FS.Stream) (st : Option ScnState) : IO Unit := do
  let line ← h.getLine
  if line.isEmpty then return ()
  let l := line.trimAscii.toString
  match st with
  | some s =>
    if l == "END" then
      out.putStrLn "#END"
      loop h out none
    else
      let (s', o) := opLine s l
      out.putStrLn o
      loop h out (some s')
  | none =>
    let toks := (l.splitOn " ").filter (· ≠ "")
    match toks with
    | "SCN" :: rest =>
      let (s, lines) := startScenario rest
      for x in lines do out.putStrLn x
      loop h out (some s)
    | "CORE" :: _ =>
      for x in coreTable do out.putStrLn x
      loop h out none
    | ["NAME", n] =>
      -- the two identifier conversions of codegen/utils.rs and the snake_case test of validation.rs
      out.putStrLn (match SMV.Name.ofString? n with
        | some nm => s!"#NAME {n}\t{(SMV.toSnake nm).toString}\t{(SMV.toPascal nm).toString}"
        | none => s!"#NAME {n}\t<not in the alphabet>")
      loop h out none
    | "INFO" :: rest =>
      for x in infoOf rest do out.putStrLn x
      loop h out none
    | _ =>
      for x in processLine line do out.putStrLn x
      loop h out none

def main : IO Unit := do
  let stdin ← IO.getStdin
  let stdout ← IO.getStdout
  loop stdin stdout none
