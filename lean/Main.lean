import SMV.Driver
open SMV.Driver

partial def loop (h : IO.FS.Stream) (out : IO.FS.Stream) : IO Unit := do
  let line ← h.getLine
  if line.isEmpty then return ()
  for l in processLine line do
    out.putStrLn l
  loop h out

def main : IO Unit := do
  let stdin ← IO.getStdin
  let stdout ← IO.getStdout
  loop stdin stdout
