#!/bin/sh
# Build the framework from files on disk only (offline).
set -e
cd /verif/lean
lake build SMV smvdriver
cd /verif
export CARGO_NET_OFFLINE=true
python3 - <<'PY'
import sys
sys.path.insert(0, '/verif/gen')
import t12, os
os.makedirs('/verif/.work', exist_ok=True)
ok, err = t12.build_smx('/verif/.work')
print('smx build', ok)
if not ok:
    print(err)
    sys.exit(1)
PY
